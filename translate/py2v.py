#!/usr/bin/env python3
"""py2v: fail-closed translator from a small subset of Python / Cython to Gallina.

Usage: py2v.py <repo-root> <out-dir>      (writes <out-dir>/<Module>.v, only if changed)

The set of translated functions is the TARGETS table below.  Anything outside the
supported subset aborts with  UNTRANSLATABLE <file>:<line>: <why>  (exit status 3), which
the checks treat as a broken tie between model and source.

Semantic mapping (trusted, validated by grid correspondence in harness/gen_corr.py):
  int -> Z; naive datetime -> Z seconds since 1970-01-01; timedelta -> Z seconds;
  int(a / b) -> Z.quot; math.ceil(a / b) -> ceiling division; //, % -> floor div / mod;
  Cython 'cdef int x = e' -> c_int e (32-bit wrap written out); <int>(a / <double>b) -> c_int (Z.quot a b);
  list -> list, dict with int keys -> association list, x[i] -> py_get (option),
  raise IndexError -> Raise IndexError; while loops -> fuelled fix (OutOfFuel);
  for loops over a list -> structural fix.
"""
import ast
import os
import re
import sys

KEYWORDS = {"end": "end_", "in": "in_", "at": "at_", "fun": "fun_", "fix": "fix_", "let": "let_",
            "match": "match_", "return": "return_", "Type": "Type_", "Set": "Set_", "Prop": "Prop_",
            "forall": "forall_", "exists": "exists_", "with": "with_", "then": "then_", "else": "else_",
            "if": "if_", "as": "as_", "using": "using_", "where": "where_", "date": "date_",
            "type": "type_", "mod": "mod_", "struct": "struct_"}


class Untranslatable(Exception):
    def __init__(self, node, why):
        self.line = getattr(node, "lineno", 0)
        self.why = why
        super().__init__(why)


def ident(name):
    return KEYWORDS.get(name, name)


# ------------------------------------------------------------------ .pyx normalisation
def normalise_pyx(text, path):
    """Turn the Cython dialect used in scriptplan/_cython/*.pyx into plain Python.
    Returns (python_text, {function: {var: ctype}}).  Unknown cdef/cpdef lines abort."""
    ctypes = {}
    out = []
    lines = text.split("\n")
    i = 0
    cur = None
    sig_re = re.compile(r"^cpdef\s+(\w+)\s+(\w+)\(\s*$|^cpdef\s+(\w+)\s+(\w+)\((.*)\):\s*$")
    ctype_names = {"int", "double", "float", "bint", "object", "list", "dict", "tuple"}
    while i < len(lines):
        ln = lines[i]
        s = ln.strip()
        if s.startswith("from cpython") or s.startswith("from libc") or s == "import cython":
            i += 1
            continue
        if s.startswith("@cython."):
            i += 1
            continue
        m = re.match(r"^cpdef\s+(\w+)\s+(\w+)\((.*)$", ln)
        if m:
            rett, fname, rest = m.group(1), m.group(2), m.group(3)
            sig = rest
            while not sig.rstrip().endswith("):"):
                i += 1
                sig += " " + lines[i].strip()
            sig = sig.rstrip()[:-2]
            params = []
            cur = fname
            ctypes[cur] = {"return": rett}
            for p in [x.strip() for x in sig.split(",") if x.strip()]:
                toks = p.split()
                if len(toks) == 2 and toks[0] in ctype_names:
                    params.append(toks[1])
                    ctypes[cur][toks[1]] = toks[0]
                elif len(toks) == 1:
                    params.append(toks[0])
                else:
                    raise SystemExit(f"UNTRANSLATABLE {path}:{i+1}: parameter '{p}'")
            out.append(f"def {fname}({', '.join(params)}):")
            i += 1
            continue
        m = re.match(r"^def\s+(\w+)\((.*)\)\s*(->\s*[\w.]+)?:\s*$", ln)
        if m:
            cur = m.group(1)
            ctypes.setdefault(cur, {})
            out.append(f"def {m.group(1)}({m.group(2)}):")
            i += 1
            continue
        def casts(z):
            z = re.sub(r"<int>\s*\(", "__c_int_cast(", z)
            z = re.sub(r"<int>\s*(\w+)", r"__c_int_cast(\1)", z)
            z = re.sub(r"<double>\s*\(", "__c_double_cast(", z)
            z = re.sub(r"<double>\s*([\w.]+)", r"__c_double_cast(\1)", z)
            z = re.sub(r"<float>\s*([\w.]+)", r"__c_float_cast(\1)", z)
            return z
        if not s.startswith("#"):
            ln = casts(ln)
        m = re.match(r"^(\s+)cdef\s+(\w+)\s+([\w,\s]+?)\s*(=\s*(.*))?$", ln)
        if m:
            ind, cty, names, _, init = m.groups()
            if cty not in ctype_names:
                raise SystemExit(f"UNTRANSLATABLE {path}:{i+1}: cdef type '{cty}'")
            for nm in [x.strip() for x in names.split(",")]:
                ctypes.setdefault(cur, {})[nm] = cty
            if init is not None:
                if "," in names:
                    raise SystemExit(f"UNTRANSLATABLE {path}:{i+1}: multi cdef with init")
                out.append(f"{ind}{names.strip()} = {init}")
            else:
                out.append(f"{ind}pass")
            i += 1
            continue
        if re.search(r"\bcdef\b|\bcpdef\b", ln) and not s.startswith("#"):
            raise SystemExit(f"UNTRANSLATABLE {path}:{i+1}: unrecognised Cython line: {s}")
        if re.search(r"<\w+>", ln) and not s.startswith("#") and '"""' not in ln:
            raise SystemExit(f"UNTRANSLATABLE {path}:{i+1}: unrecognised cast: {s}")
        out.append(ln)
        i += 1
    return "\n".join(out), ctypes


# ------------------------------------------------------------------ translation of one function
class Ctx:
    def __init__(self, spec, ctypes, known_funcs, path):
        self.spec = spec
        self.ctypes = ctypes or {}
        self.known = known_funcs          # name -> (coqname, effectful, nparams or None)
        self.path = path
        self.cdivision = False
        self.self_params = []             # discovered self.* reads, in order
        self.tmp = 0
        self.effectful = False
        self.loopn = 0
        self.assigned_self = set()

    def fresh(self, base="t"):
        self.tmp += 1
        return f"{base}mp{self.tmp}"


def is_name(n, s):
    return isinstance(n, ast.Name) and n.id == s


class FnTranslator:
    def __init__(self, ctx):
        self.c = ctx
        self.spec = ctx.spec
        self.use_cython = ctx.spec.get("use_cython")
        self.nonnull = set(ctx.spec.get("nonnull", []))
        self.lists = set(ctx.spec.get("lists", []))
        self.opaque = ctx.spec.get("opaque", {})
        self.attrmap = ctx.spec.get("attrmap", {})
        self.cints = {k for k, v in ctx.ctypes.items() if v == "int" and k != "return"}

    # ---------- expressions.  Returns (coq_text, hoisted_binds) ; kind tracked loosely
    def selfattr(self, name):
        p = "self_" + name.lstrip("_")
        if p not in self.c.self_params and name not in self.c.assigned_self:
            self.c.self_params.append(p)
        return p

    def expr(self, e, binds):
        E = lambda x: self.expr(x, binds)
        if isinstance(e, ast.Constant):
            if isinstance(e.value, bool):
                return "true" if e.value else "false"
            if isinstance(e.value, int):
                return f"{e.value}" if e.value >= 0 else f"({e.value})"
            if e.value is None:
                return "None"
            if isinstance(e.value, float) and e.value == int(e.value):
                return f"{int(e.value)}"
            raise Untranslatable(e, f"constant {e.value!r}")
        if isinstance(e, ast.Name):
            if e.id == "True":
                return "true"
            if e.id == "TimeInterval":
                return "tt"
            return ident(e.id)
        if isinstance(e, ast.Attribute):
            # self.x
            if is_name(e.value, "self"):
                return self.selfattr(e.attr)
            # self.attributes["k"] handled in Subscript
            if isinstance(e.value, ast.Name) and (e.value.id, e.attr) in self.attrmap:
                return f"({self.attrmap[(e.value.id, e.attr)]} {ident(e.value.id)})"
            if e.attr == "hour":
                return f"(dt_hour {E(e.value)})"
            if e.attr == "minute":
                return f"(dt_minute {E(e.value)})"
            if e.attr == "days":
                return E(e.value)          # difference of two day numbers
            raise Untranslatable(e, f"attribute .{e.attr}")
        if isinstance(e, ast.Subscript):
            # self.attributes["start"]
            if isinstance(e.value, ast.Attribute) and is_name(e.value.value, "self") and e.value.attr == "attributes" \
                    and isinstance(e.slice, ast.Constant) and isinstance(e.slice.value, str):
                return self.selfattr("attr_" + e.slice.value)
            base = e.value
            if isinstance(e.slice, ast.Constant) and e.slice.value in (0, 1) and not self.is_list(base):
                return f"({'fst' if e.slice.value == 0 else 'snd'} {E(base)})"
            if self.is_dict(base):
                return f"(dict_get_list {E(base)} {E(e.slice)})"
            if self.is_list(base):
                return f"(py_get {E(base)} {E(e.slice)})"
            raise Untranslatable(e, "subscript")
        if isinstance(e, ast.UnaryOp):
            if isinstance(e.op, ast.Not):
                return f"(negb {self.cond(e.operand, binds)})"
            if isinstance(e.op, ast.USub):
                return f"(- {E(e.operand)})"
            raise Untranslatable(e, "unary op")
        if isinstance(e, ast.BinOp):
            l, r = e.left, e.right
            if isinstance(e.op, ast.Add):
                return f"({E(l)} + {E(r)})"
            if isinstance(e.op, ast.Sub):
                return f"({E(l)} - {E(r)})"
            if isinstance(e.op, ast.Mult):
                return f"({E(l)} * {E(r)})"
            if isinstance(e.op, ast.FloorDiv):
                # in a .pyx compiled with cdivision=True, C ints divide the C way (truncation)
                return f"({'c_div' if self.c.cdivision else 'py_floordiv'} {E(l)} {E(r)})"
            if isinstance(e.op, ast.Mod):
                return f"({'c_rem' if self.c.cdivision else 'py_mod'} {E(l)} {E(r)})"
            raise Untranslatable(e, "binary operator (float division only inside int()/math.ceil())")
        if isinstance(e, (ast.Compare, ast.BoolOp)):
            return self.cond(e, binds)
        if isinstance(e, ast.IfExp):
            return f"(if {self.cond(e.test, binds)} then {E(e.body)} else {E(e.orelse)})"
        if isinstance(e, ast.List):
            return "[" + "; ".join(E(x) for x in e.elts) + "]"
        if isinstance(e, ast.Tuple):
            return "(" + ", ".join(E(x) for x in e.elts) + ")"
        if isinstance(e, ast.Call):
            return self.call(e, binds)
        raise Untranslatable(e, type(e).__name__)

    def is_list(self, n):
        if isinstance(n, ast.Name):
            return n.id in self.lists
        if isinstance(n, ast.Attribute) and is_name(n.value, "self"):
            return ("self." + n.attr) in self.lists
        return False

    def is_dict(self, n):
        dicts = set(self.spec.get("dicts", []))
        if isinstance(n, ast.Name):
            return n.id in dicts
        if isinstance(n, ast.Attribute) and is_name(n.value, "self"):
            return ("self." + n.attr) in dicts
        return False

    def divpair(self, e):
        """a / b  (possibly with C double casts) -> (a, b) or None"""
        if isinstance(e, ast.BinOp) and isinstance(e.op, ast.Div):
            def strip(x):
                while isinstance(x, ast.Call) and isinstance(x.func, ast.Name) and x.func.id in (
                        "__c_double_cast", "float") and len(x.args) == 1:
                    x = x.args[0]
                return x
            return strip(e.left), strip(e.right)
        return None

    def call(self, e, binds):
        E = lambda x: self.expr(x, binds)
        f = e.func
        if isinstance(f, ast.Name):
            n = f.id
            if n in ("int", "__c_int_cast") and len(e.args) == 1:
                dp = self.divpair(e.args[0])
                inner = f"(py_trunc_div {E(dp[0])} {E(dp[1])})" if dp else E(e.args[0])
                return f"(c_int {inner})" if n == "__c_int_cast" else inner
            if n in ("float", "bool", "cast", "__c_double_cast") :
                return E(e.args[-1])
            if n == "len":
                return f"(py_len {E(e.args[0])})"
            if n == "max" and len(e.args) == 2:
                return f"(zmax {E(e.args[0])} {E(e.args[1])})"
            if n == "min" and len(e.args) == 2:
                return f"(zmin {E(e.args[0])} {E(e.args[1])})"
            if n == "timedelta":
                if len(e.keywords) == 1 and not e.args:
                    k = e.keywords[0]
                    if k.arg == "seconds":
                        return E(k.value)
                    if k.arg == "days":
                        return E(k.value)          # only ever added to / subtracted from day numbers
                raise Untranslatable(e, "timedelta form")
            if n in self.opaque:
                return f"({self.opaque[n]} " + " ".join(E(a) for a in e.args) + ")"
            if n in ("TimeInterval", "interval_class") and len(e.args) == 2:
                return f"({E(e.args[0])}, {E(e.args[1])})"
            if n in self.c.known:
                return self.known_call(self.c.known[n], [E(a) for a in e.args], binds, e)
            if n in self.spec.get("fun_params", []):
                return f"({ident(n)} " + " ".join(E(a) for a in e.args) + ")"
            raise Untranslatable(e, f"call to {n}")
        if isinstance(f, ast.Attribute):
            if f.attr == "ceil" and is_name(f.value, "math") and len(e.args) == 1:
                dp = self.divpair(e.args[0])
                if dp:
                    return f"(py_ceil_div {E(dp[0])} {E(dp[1])})"
                raise Untranslatable(e, "math.ceil of a non-division")
            if f.attr == "total_seconds" and not e.args:
                return E(f.value)
            if f.attr == "weekday" and not e.args:
                if self.spec.get("dates") and isinstance(f.value, ast.Name) and f.value.id in self.spec["dates"]:
                    return f"(date_weekday {E(f.value)})"
                return f"(dt_weekday {E(f.value)})"
            if f.attr == "date" and not e.args:
                return f"(dt_date {E(f.value)})"
            if f.attr == "get" and self.is_dict(f.value):
                if len(e.args) == 2 and isinstance(e.args[1], ast.List) and not e.args[1].elts:
                    return f"(dict_get_list {E(f.value)} {E(e.args[0])})"
                if len(e.args) == 1:
                    return f"(dict_get_list {E(f.value)} {E(e.args[0])})"
            if is_name(f.value, "self") and f.attr in self.c.known:
                info = self.c.known[f.attr]
                args = [E(a) for a in e.args]
                # default arguments
                defaults = info.get("defaults", [])
                npos = info["nargs"]
                if len(args) < npos:
                    args += defaults[len(defaults) - (npos - len(args)):]
                return self.known_call(info, args, binds, e, method=True)
            raise Untranslatable(e, f"method call .{f.attr}")
        raise Untranslatable(e, "call")

    def known_call(self, info, args, binds, node, method=False):
        name = info["coq"]
        if info.get("variants"):
            name = name + ("_cy" if self.use_cython else "_py")
        pre = []
        if method or info.get("self_params"):
            pre = info.get("self_params", [])
            for p in pre:
                if p not in self.c.self_params:
                    self.c.self_params.append(p)
        txt = f"({name} " + " ".join(pre + args) + ")"
        if info["effectful"]:
            self.c.effectful = True
            t = self.c.fresh()
            binds.append((t, txt))
            return t
        return txt

    def cond(self, e, binds):
        E = lambda x: self.expr(x, binds)
        if isinstance(e, ast.BoolOp):
            op = "&&" if isinstance(e.op, ast.And) else "||"
            return "(" + f" {op} ".join(self.cond(v, binds) for v in e.values) + ")"
        if isinstance(e, ast.UnaryOp) and isinstance(e.op, ast.Not):
            inner = e.operand
            if self.is_list_expr(inner):
                return f"(negb (list_truthy {E(inner)}))"
            if self.is_nonnull(inner):
                return "false"
            return f"(negb {self.cond(inner, binds)})"
        if isinstance(e, ast.Compare):
            parts = []
            left = e.left
            for op, right in zip(e.ops, e.comparators):
                parts.append(self.cmp(left, op, right, binds))
                left = right
            return parts[0] if len(parts) == 1 else "(" + " && ".join(parts) + ")"
        if isinstance(e, ast.Constant) and isinstance(e.value, bool):
            return "true" if e.value else "false"
        if isinstance(e, ast.Name) and e.id == "_USE_CYTHON":
            return "true" if self.use_cython else "false"
        if self.is_list_expr(e):
            return f"(list_truthy {E(e)})"
        if self.is_nonnull(e):
            return "true"
        if self.is_null(e):
            return "false"
        # a boolean-valued expression (variable, call)
        return E(e)

    def is_null(self, e):
        nulls = set(self.spec.get("null", []))
        if isinstance(e, ast.Attribute) and is_name(e.value, "self"):
            return ("self." + e.attr) in nulls
        return False

    def is_nonnull(self, e):
        if isinstance(e, ast.Name):
            return e.id in self.nonnull
        if isinstance(e, ast.Subscript) and isinstance(e.value, ast.Attribute) and is_name(e.value.value, "self") \
                and e.value.attr == "attributes" and isinstance(e.slice, ast.Constant):
            return ("attr_" + str(e.slice.value)) in self.nonnull
        if isinstance(e, ast.Attribute) and is_name(e.value, "self"):
            return ("self." + e.attr) in self.nonnull
        return False

    def is_list_expr(self, e):
        if self.is_list(e):
            return True
        if isinstance(e, ast.Subscript) and self.is_dict(e.value):
            return True
        if isinstance(e, ast.Call) and isinstance(e.func, ast.Attribute) and e.func.attr == "get" and self.is_dict(
                e.func.value):
            return True
        return False

    def cmp(self, l, op, r, binds):
        E = lambda x: self.expr(x, binds)
        if isinstance(op, (ast.Is, ast.IsNot)) and isinstance(r, ast.Constant) and r.value is None:
            if self.is_nonnull(l):
                return "false" if isinstance(op, ast.Is) else "true"
            raise Untranslatable(l, "None test on a value not declared non-null")
        if isinstance(op, (ast.In, ast.NotIn)) and self.is_dict(r):
            t = f"(dict_mem {E(r)} {E(l)})"
            return t if isinstance(op, ast.In) else f"(negb {t})"
        table = {ast.Lt: "<?", ast.LtE: "<=?", ast.Gt: ">?", ast.GtE: ">=?", ast.Eq: "=?"}
        for k, v in table.items():
            if isinstance(op, k):
                return f"({E(l)} {v} {E(r)})"
        if isinstance(op, ast.NotEq):
            return f"(negb ({E(l)} =? {E(r)}))"
        raise Untranslatable(l, "comparison operator")

    # ---------- statements (CPS with duplicated continuations)
    def wrap_binds(self, binds, body):
        for t, call in reversed(binds):
            body = f"({t} <- {call} ;; {body})"
        return body

    def ret(self, txt):
        return f"(Ok {txt})" if self.eff else txt

    def bindname(self, nm):
        self.scope.add(nm)

    def has_exit(self, stmts):
        for n in ast.walk(ast.Module(body=list(stmts), type_ignores=[])):
            if isinstance(n, (ast.Return, ast.Raise, ast.While, ast.For)):
                return True
            if isinstance(n, ast.Call):
                nm = n.func.id if isinstance(n.func, ast.Name) else (n.func.attr if isinstance(n.func, ast.Attribute) else None)
                if nm in self.c.known and self.c.known[nm]["effectful"]:
                    return True
        return False

    def block(self, stmts, k):
        """stmts: remaining statements; k: continuation description:
             ('end',)               function end (implicit return None)
             ('loop', callstr_fn, rest_stmts, k_outer)   inside a loop body: falling off = continue
        """
        if not stmts:
            if k[0] == "end":
                if self.spec.get("implicit_none_ok"):
                    return self.ret("None")
                raise Untranslatable(self.fnnode, "control reaches end of function without return")
            if k[0] == "loop":
                return k[1]()
            if k[0] == "join":
                return "(" + ", ".join(k[1]) + ")" if len(k[1]) != 1 else k[1][0]
            raise AssertionError
        s, rest = stmts[0], stmts[1:]
        if isinstance(s, ast.Expr):
            if isinstance(s.value, ast.Constant):      # docstring
                return self.block(rest, k)
            # xs.append(e)
            v = s.value
            if isinstance(v, ast.Call) and isinstance(v.func, ast.Attribute) and v.func.attr == "append" \
                    and isinstance(v.func.value, ast.Name):
                binds = []
                item = self.expr(v.args[0], binds)
                nm = ident(v.func.value.id)
                self.bindname(nm)
                return self.wrap_binds(binds, f"(let {nm} := {nm} ++ [{item}] in {self.block(rest, k)})")
            if isinstance(v, ast.Attribute) and is_name(v.value, "self"):
                return self.block(rest, k)
            if isinstance(v, ast.Subscript):           # bare expression such as self.attributes["x"]
                return self.block(rest, k)
            raise Untranslatable(s, "expression statement")
        if isinstance(s, ast.Pass):
            return self.block(rest, k)
        if isinstance(s, (ast.Import, ast.ImportFrom)):
            return self.block(rest, k)
        if isinstance(s, ast.AnnAssign):
            if s.value is None:
                return self.block(rest, k)
            s = ast.Assign(targets=[s.target], value=s.value, lineno=s.lineno)
        if isinstance(s, ast.Assign):
            if len(s.targets) != 1:
                raise Untranslatable(s, "multiple assignment targets")
            tgt = s.targets[0]
            binds = []
            if isinstance(tgt, ast.Attribute) and is_name(tgt.value, "self"):
                if self.spec.get("returns_attr") == tgt.attr:
                    val = self.expr(s.value, binds)
                    return self.wrap_binds(binds, self.ret(val))
                val = self.expr(s.value, binds)
                self.c.assigned_self.add(tgt.attr)
                nm = "self_" + tgt.attr.lstrip("_")
                self.bindname(nm)
                return self.wrap_binds(binds, f"(let {nm} := {val} in {self.block(rest, k)})")
            if isinstance(tgt, ast.Subscript) and self.is_list(tgt.value):
                base = self.expr(tgt.value, binds)
                idx = self.expr(tgt.slice, binds)
                val = self.expr(s.value, binds)
                return self.wrap_binds(binds, f"(let {base} := py_set {base} {idx} {val} in {self.block(rest, k)})")
            if isinstance(tgt, ast.Name):
                val = self.expr(s.value, binds)
                if tgt.id in self.cints and not val.startswith("(c_int "):
                    val = f"(c_int {val})"
                self.bindname(ident(tgt.id))
                return self.wrap_binds(binds, f"(let {ident(tgt.id)} := {val} in {self.block(rest, k)})")
            if isinstance(tgt, ast.Tuple) and all(isinstance(x, ast.Name) for x in tgt.elts):
                val = self.expr(s.value, binds)
                pat = ", ".join(ident(x.id) for x in tgt.elts)
                for x in tgt.elts:
                    self.bindname(ident(x.id))
                return self.wrap_binds(binds, f"(let '({pat}) := {val} in {self.block(rest, k)})")
            raise Untranslatable(s, "assignment target")
        if isinstance(s, ast.AugAssign):
            binds = []
            op = {ast.Add: "+", ast.Sub: "-"}.get(type(s.op))
            if op is None:
                raise Untranslatable(s, "augmented assignment operator")
            val = self.expr(s.value, binds)
            if isinstance(s.target, ast.Name):
                nm = ident(s.target.id)
                new = f"({nm} {op} {val})"
                if s.target.id in self.cints:
                    new = f"(c_int {new})"
                return self.wrap_binds(binds, f"(let {nm} := {new} in {self.block(rest, k)})")
            if isinstance(s.target, ast.Subscript) and self.is_list(s.target.value):
                base = self.expr(s.target.value, binds)
                idx = self.expr(s.target.slice, binds)
                upd = f"(match py_get {base} {idx} with Some vR => py_set {base} {idx} (vR {op} {val}) | None => {base} end)"
                return self.wrap_binds(binds, f"(let {base} := {upd} in {self.block(rest, k)})")
            raise Untranslatable(s, "augmented assignment target")
        if isinstance(s, ast.Return):
            binds = []
            if s.value is None:
                val = "None"
            else:
                v_ = s.value
                sd = self.spec.get("strip_div")
                if sd is not None and isinstance(v_, ast.BinOp) and isinstance(v_.op, ast.Div) \
                        and isinstance(v_.right, ast.Constant) and v_.right.value == sd:
                    # 'return minutes / 60.0': the model returns the integral numerator; the
                    # declared C return type is recorded separately (ret_ctype)
                    v_ = v_.left
                    while isinstance(v_, ast.Call) and isinstance(v_.func, ast.Name) and v_.func.id in (
                            "__c_double_cast", "__c_float_cast", "float") and len(v_.args) == 1:
                        v_ = v_.args[0]
                val = self.expr(v_, binds)
            if self.rettype == "bool" and s.value is not None and not isinstance(s.value, ast.Constant):
                binds2 = []
                val = self.cond(s.value, binds2)
                binds = binds2
            return self.wrap_binds(binds, self.ret(val))
        if isinstance(s, ast.Raise):
            self.c.effectful = True
            name = None
            if isinstance(s.exc, ast.Call) and isinstance(s.exc.func, ast.Name):
                name = s.exc.func.id
            if name not in ("IndexError", "ValueError"):
                raise Untranslatable(s, "raise of an unsupported exception")
            return f"(Raise {name})"
        if isinstance(s, ast.If):
            binds = []
            c = self.cond(s.test, binds)
            if c == "true":
                return self.wrap_binds(binds, self.block(list(s.body) + rest, k))
            if c == "false":
                return self.wrap_binds(binds, self.block(list(s.orelse) + rest, k))
            if not self.has_exit(s.body) and not self.has_exit(s.orelse):
                # join form: let '(v1, .., vn) := if c then .. else .. in rest
                ab, ao = self.assigned_names(s.body), self.assigned_names(s.orelse)
                V = [ident(v) for v in dict.fromkeys(ab + ao) if ident(v) in self.scope or (v in ab and v in ao)]
                if not V:
                    return self.wrap_binds(binds, self.block(rest, k))
                saved = set(self.scope)
                a = self.block(list(s.body), ("join", V))
                self.scope = set(saved)
                b = self.block(list(s.orelse), ("join", V))
                self.scope = set(saved) | set(V)
                pat = V[0] if len(V) == 1 else "'(" + ", ".join(V) + ")"
                return self.wrap_binds(binds, f"(let {pat} := (if {c} then {a} else {b}) in\n  {self.block(rest, k)})")
            saved = set(self.scope)
            a = self.block(list(s.body) + rest, k)
            self.scope = set(saved)
            b = self.block(list(s.orelse) + rest, k)
            self.scope = saved
            return self.wrap_binds(binds, f"(if {c} then {a} else {b})")
        if isinstance(s, ast.Try):
            ok = all(isinstance(h.type, ast.Name) and h.type.id == "AttributeError" for h in s.handlers)
            if not ok or s.orelse or s.finalbody:
                raise Untranslatable(s, "try statement other than 'except AttributeError' around datetime arithmetic")
            return self.block(list(s.body) + rest, k)
        if isinstance(s, ast.While):
            return self.loop_while(s, rest, k)
        if isinstance(s, ast.For):
            return self.loop_for(s, rest, k)
        raise Untranslatable(s, type(s).__name__)

    def assigned_names(self, stmts):
        names = []
        for n in ast.walk(ast.Module(body=list(stmts), type_ignores=[])):
            t = None
            if isinstance(n, ast.Assign):
                t = n.targets
            elif isinstance(n, (ast.AugAssign, ast.AnnAssign)):
                t = [n.target]
            elif isinstance(n, ast.Expr) and isinstance(n.value, ast.Call) and isinstance(n.value.func, ast.Attribute) \
                    and n.value.func.attr == "append" and isinstance(n.value.func.value, ast.Name):
                t = [n.value.func.value]
            for x in t or []:
                for y in ([x] if not isinstance(x, ast.Tuple) else x.elts):
                    if isinstance(y, ast.Name) and y.id not in names:
                        names.append(y.id)
                    if isinstance(y, ast.Subscript) and isinstance(y.value, ast.Attribute) and is_name(y.value.value, "self"):
                        nm = "self_" + y.value.attr.lstrip("_")
                        if nm not in names:
                            names.append(nm)
                    if isinstance(y, ast.Subscript) and isinstance(y.value, ast.Name) and y.value.id not in names:
                        names.append(y.value.id)
        return names

    def loop_while(self, s, rest, k):
        if s.orelse:
            raise Untranslatable(s, "while-else")
        self.c.effectful = True
        if not self.eff:
            raise Untranslatable(s, "while loop in a function declared pure")
        ln_ = self.loop_index[id(s)]
        lname = f"loop{ln_}"
        carried = [ident(v) for v in self.assigned_names(s.body) if ident(v) in self.scope]
        fuel = self.spec.get("fuel", {}).get(ln_)
        if fuel is None:
            raise Untranslatable(s, "while loop without a fuel bound in the translator table")
        binds = []
        c = self.cond(s.test, binds)
        if binds:
            raise Untranslatable(s, "effectful call in loop condition")
        cont = lambda: f"({lname} fuelR " + " ".join(carried) + ")"
        saved = set(self.scope)
        body = self.block(list(s.body), ("loop", cont))
        self.scope = set(saved)
        after = self.block(rest, k)
        self.scope = saved
        params = " ".join(carried)
        return (f"((fix {lname} (fuel_ : nat) {params} {{struct fuel_}} : {self.coq_rettype()} :=\n"
                f"   match fuel_ with\n   | O => Raise OutOfFuel\n   | S fuelR =>\n"
                f"     if {c} then {body}\n     else {after}\n   end) ({fuel}) {params})")

    def loop_for(self, s, rest, k):
        if s.orelse:
            raise Untranslatable(s, "for-else")
        lname = f"loop{self.loop_index[id(s)]}"
        it = s.iter
        body = list(s.body)
        # for i in range(len(X)):  with X[i] uses  ->  for X_i in X
        if isinstance(it, ast.Call) and is_name(it.func, "range") and len(it.args) == 1 and isinstance(it.args[0], ast.Call) \
                and is_name(it.args[0].func, "len") and isinstance(s.target, ast.Name):
            X = it.args[0].args[0]
            if not isinstance(X, ast.Name):
                raise Untranslatable(s, "range(len(...)) over a non-variable")
            iv, xn = s.target.id, X.id
            elem = f"{xn}_item"

            class R(ast.NodeTransformer):
                def visit_Subscript(self_, n):
                    if is_name(n.value, xn) and is_name(n.slice, iv):
                        return ast.copy_location(ast.Name(id=elem, ctx=ast.Load()), n)
                    return self_.generic_visit(n)
            body = [R().visit(b) for b in body]
            for n in ast.walk(ast.Module(body=body, type_ignores=[])):
                if is_name(n, iv):
                    raise Untranslatable(s, "loop index used other than as X[i]")
            pat = elem
            it = X
        else:
            pat = self.pattern(s.target)
        binds = []
        lst = self.expr(it, binds)
        carried = [ident(v) for v in self.assigned_names(body) if ident(v) in self.scope]
        params = " ".join(carried)
        cont = lambda: f"({lname} tlR " + " ".join(carried) + ")"
        saved = set(self.scope)
        for n_ in ast.walk(s.target):
            if isinstance(n_, ast.Name):
                self.scope.add(ident(n_.id))
        b = self.block(body, ("loop", cont))
        self.scope = set(saved)
        after = self.block(rest, k)
        self.scope = saved
        return self.wrap_binds(binds,
                               f"((fix {lname} (xsR : list _) {params} {{struct xsR}} : {self.coq_rettype()} :=\n"
                               f"   match xsR with\n   | [] => {after}\n   | {pat} :: tlR =>\n     {b}\n   end) {lst} {params})")

    def pattern(self, t):
        if isinstance(t, ast.Name):
            return ident(t.id)
        if isinstance(t, ast.Tuple):
            return "(" + ", ".join(self.pattern(x) for x in t.elts) + ")"
        raise Untranslatable(t, "loop target pattern")

    def coq_rettype(self):
        return f"res ({self.rettype})" if self.eff else self.rettype

    # ---------- whole function
    def translate(self, fn, name, params, eff):
        self.fnnode = fn
        self.eff = eff
        self.rettype = self.spec["ret"]
        body = list(fn.body)
        start_at = self.spec.get("start_at")
        if start_at:
            idx = None
            for i, st in enumerate(body):
                if ast.unparse(st).strip() == start_at:
                    idx = i
            if idx is None:
                raise Untranslatable(fn, f"slice start '{start_at}' not found")
            body = body[idx:]
        self.scope = set(ident(p) for p, _ in params)
        self.loop_index = {}
        n_ = 0
        for node in ast.walk(fn):
            pass
        def number(stmts):
            nonlocal n_
            for st in stmts:
                if isinstance(st, (ast.While, ast.For)):
                    n_ += 1
                    self.loop_index[id(st)] = n_
                    number(st.body)
                elif isinstance(st, ast.If):
                    number(st.body)
                    number(st.orelse)
                elif isinstance(st, ast.Try):
                    number(st.body)
        number(body)
        txt = self.block(body, ("end",))
        return txt


def translate_target(repo, tgt, known, outlines):
    path = os.path.join(repo, tgt["src"])
    text = open(path).read()
    ctypes_all = {}
    cdivision = False
    if path.endswith(".pyx"):
        # C semantics of / and % on C ints apply when the directive is set in the file or in setup.py
        setup_py = open(os.path.join(repo, "setup.py")).read() if os.path.exists(os.path.join(repo, "setup.py")) else ""
        cdivision = bool(re.search(r"^#\s*cython:\s*cdivision\s*=\s*True", text, re.M)) or \
            bool(re.search(r"[\"']cdivision[\"']\s*:\s*True", setup_py))
        text, ctypes_all = normalise_pyx(text, tgt["src"])
    try:
        tree = ast.parse(text)
    except SyntaxError as ex:
        raise SystemExit(f"UNTRANSLATABLE {tgt['src']}:{ex.lineno}: not parseable after normalisation: {ex.msg}")
    funcs = {}
    for node in tree.body:
        if isinstance(node, ast.FunctionDef):
            funcs[node.name] = node
        if isinstance(node, ast.ClassDef) and node.name == tgt.get("cls"):
            for n2 in node.body:
                if isinstance(n2, ast.FunctionDef):
                    funcs[n2.name] = n2
    for spec in tgt["funcs"]:
        fn = funcs.get(spec["py"])
        if fn is None:
            raise SystemExit(f"UNTRANSLATABLE {tgt['src']}:0: function {spec['py']} not found")
        variants = [True, False] if spec.get("variants") else [None]
        for uc in variants:
            sp = dict(spec)
            sp["use_cython"] = uc
            ctx = Ctx(sp, ctypes_all.get(spec["py"], {}), known, tgt["src"])
            ctx.cdivision = cdivision
            tr = FnTranslator(ctx)
            args = [a.arg for a in fn.args.args if a.arg != "self"]
            if spec.get("params") is not None:
                params = list(spec["params"])
            else:
                types = spec.get("types", {})
                params = [(a, types.get(a, "Z")) for a in args]
            eff = spec.get("effectful", False)
            try:
                body = tr.translate(fn, spec["coq"], params, eff)
            except Untranslatable as ex:
                raise SystemExit(f"UNTRANSLATABLE {tgt['src']}:{ex.line}: in {spec['py']}: {ex.why}")
            if ctx.effectful and not eff:
                raise SystemExit(f"UNTRANSLATABLE {tgt['src']}:{fn.lineno}: {spec['py']} raises/loops but is declared pure")
            name = spec["coq"] + ("" if uc is None else ("_cy" if uc else "_py"))
            selfp = spec.get("self_params")
            if selfp is None:
                selfp = ctx.self_params
            else:
                extra = [p for p in ctx.self_params if p not in selfp]
                if extra:
                    raise SystemExit(f"UNTRANSLATABLE {tgt['src']}:{fn.lineno}: {spec['py']} reads undeclared state {extra}")
            stypes = spec.get("self_types", {})
            binders = " ".join(f"({p} : {stypes.get(p, 'Z')})" for p in selfp)
            binders += " " + " ".join(f"({ident(p)} : {t})" for p, t in params)
            tparams = spec.get("tparams", "")
            rt = f"res ({spec['ret']})" if eff else spec["ret"]
            outlines.append(f"(* {tgt['src']}:{fn.lineno} {spec['py']}" + ("" if uc is None else f" with _USE_CYTHON = {uc}") + " *)")
            outlines.append(f"Definition {name} {tparams} {binders} : {rt} :=\n  {body}.\n")
            if ctypes_all.get(spec["py"]):
                ct = ctypes_all[spec["py"]]
                outlines.append(f"Definition {name}_ret_ctype : nat := {CTYPE_CODE.get(ct.get('return', 'object'), 9)}. "
                                f"(* declared C return type: {ct.get('return')} ; 0=object 1=int 2=bint 3=double 4=float *)\n")
        known[spec["py"]] = dict(coq=spec["coq"], effectful=spec.get("effectful", False), variants=bool(spec.get("variants")),
                                 self_params=spec.get("self_params", []) if tgt.get("cls") else [],
                                 nargs=len([a for a in fn.args.args if a.arg != "self"]),
                                 defaults=[FnTranslator(Ctx(spec, {}, known, "")).expr(d, []) for d in fn.args.defaults])


CTYPE_CODE = {"object": 0, "list": 0, "tuple": 0, "dict": 0, "int": 1, "bint": 2, "double": 3, "float": 4}

HEADER = """(* GENERATED by translate/py2v.py from {src} -- do not edit.
   Regenerated from /repo's working tree on every check run. *)
From Coq Require Import ZArith List Bool.
Require Import SP.Base.PyRt.
{imports}Import ListNotations.
Open Scope Z_scope.
Open Scope bool_scope.

"""

IV = "(Z * Z)"
HOURS = "list (Z * list ((Z * Z) * (Z * Z)))"

TARGETS = [
    dict(out="ScoreboardCy", src="scriptplan/_cython/scoreboard_cy.pyx", imports=[], funcs=[
        dict(py="date_to_idx_fast", coq="date_to_idx_fast", ret="Z",
             types={"force_into_project": "bool"}, opaque={"_total_seconds": ""}),
        dict(py="idx_to_date_fast", coq="idx_to_date_fast", ret="Z", types={"force_into_project": "bool"}),
        dict(py="collect_intervals_fast", coq="collect_intervals_fast", ret=f"list {IV}", effectful=True,
             tparams="{V : Type}", types={"sb": "list V", "predicate": "option V -> bool", "interval_class": "unit"},
             lists=["sb", "intervals"], fun_params=["predicate"], fuel={1: "Z.to_nat (end_idx + 2 - idx)"}),
    ]),
    dict(out="ScoreboardPy", src="scriptplan/scheduler/scoreboard.py", cls="Scoreboard", imports=["ScoreboardCy"], funcs=[
        dict(py="__init__", coq="Scoreboard_size", ret="Z", returns_attr="size",
             params=[("start", "Z"), ("end", "Z"), ("granularity", "Z")], self_params=[]),
        dict(py="idxToDate", coq="Scoreboard_idxToDate", ret="Z", effectful=True, variants=True,
             types={"forceIntoProject": "bool"}, nonnull=["result"],
             self_params=["self_startDate", "self_endDate", "self_resolution", "self_size"]),
        dict(py="dateToIdx", coq="Scoreboard_dateToIdx", ret="Z", effectful=True, variants=True,
             types={"forceIntoProject": "bool"},
             self_params=["self_startDate", "self_endDate", "self_resolution", "self_size"]),
        dict(py="collectIntervals", coq="Scoreboard_collectIntervals", ret=f"list {IV}", effectful=True, variants=True,
             tparams="{V : Type}", types={"iv": IV, "predicate": "option V -> bool"},
             attrmap={("iv", "start"): "fst", ("iv", "end"): "snd"}, opaque={"cast": ""},
             lists=["self.sb", "intervals"], fun_params=["predicate"], fuel={1: "Z.to_nat (endIdx + 2 - idx)"},
             self_params=["self_startDate", "self_endDate", "self_resolution", "self_size", "self_sb"],
             self_types={"self_sb": "list V"}),
    ]),
    dict(out="TimeUtilsCy", src="scriptplan/_cython/time_utils_cy.pyx", imports=[], funcs=[
        dict(py="project_date_to_idx", coq="project_date_to_idx", ret="Z", nonnull=["start"]),
        dict(py="project_idx_to_date", coq="project_idx_to_date", ret="Z", nonnull=["start"]),
        dict(py="scoreboard_size", coq="scoreboard_size_cy", ret="Z", nonnull=["start", "end"]),
        dict(py="is_working_time_fast", coq="is_working_time_fast", ret="bool", nonnull=["start"]),
    ]),
    dict(out="ProjectPy", src="scriptplan/core/project.py", cls="Project", imports=["TimeUtilsCy"], funcs=[
        dict(py="dateToIdx", coq="Project_dateToIdx", ret="Z", variants=True, types={"forceIntoProject": "bool"},
             nonnull=["attr_start"], self_params=["self_attr_start", "self_attr_scheduleGranularity"]),
        dict(py="scoreboardSize", coq="Project_scoreboardSize_nosb", ret="Z", null=["self.scoreboard"],
             nonnull=["attr_start", "attr_end"],
             self_params=["self_attr_start", "self_attr_end", "self_attr_scheduleGranularity"]),
        dict(py="idxToDate", coq="Project_idxToDate", ret="Z", variants=True,
             nonnull=["attr_start"], self_params=["self_attr_start", "self_attr_scheduleGranularity"]),
    ]),
    dict(out="WorkingHoursCy", src="scriptplan/_cython/working_hours_cy.pyx", imports=[], funcs=[
        dict(py="check_working_hours_fast", coq="check_working_hours_fast", ret="bool",
             types={"hours_dict": HOURS, "check_cross_midnight": "bool"}, dicts=["hours_dict"], lists=["intervals"]),
        dict(py="calculate_daily_hours", coq="calculate_daily_minutes_cy", ret="Z",
             types={"intervals": "list ((Z * Z) * (Z * Z))"}, lists=["intervals"], strip_div=60.0),
    ]),
    dict(out="WorkingHoursPy", src="scriptplan/core/working_hours.py", cls="WorkingHours", imports=["WorkingHoursCy"], funcs=[
        dict(py="containsTime", coq="WorkingHours_onShift_local", ret="bool", variants=True,
             start_at="weekday = dt.weekday()", params=[("dt", "Z")], dicts=["self._hours"],
             self_params=["self_hours"], self_types={"self_hours": HOURS}),
        dict(py="get_daily_hours", coq="WorkingHours_get_daily_minutes", ret="Z", variants=True, strip_div=60.0,
             dicts=["self._hours"], self_params=["self_hours"], self_types={"self_hours": HOURS}),
    ]),
    dict(out="LimitsPy", src="scriptplan/core/limits.py", cls="Limit", imports=[], funcs=[
        dict(py="_idx_to_sb_idx", coq="Limit_idx_to_sb_idx", ret="Z", dates=["start_day", "slot_day"],
             self_params=["self_interval_start", "self_slot_duration", "self_period"]),
    ]),
]


def main():
    repo, outdir = sys.argv[1], sys.argv[2]
    os.makedirs(outdir, exist_ok=True)
    known = {}
    for tgt in TARGETS:
        lines = []
        # methods of one class see each other; module-level cython functions are visible to later targets
        translate_target(repo, tgt, known, lines)
        imports = "".join(f"Require Import SP.Gen.{m}.\n" for m in tgt["imports"])
        text = HEADER.format(src=tgt["src"], imports=imports) + "\n".join(lines)
        path = os.path.join(outdir, tgt["out"] + ".v")
        old = open(path).read() if os.path.exists(path) else None
        if old != text:
            open(path, "w").write(text)
            print("wrote", path)
    return 0


if __name__ == "__main__":
    sys.exit(main())
